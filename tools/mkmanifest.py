#!/usr/bin/env python3
"""Regenerates /verif/MANIFEST.json from tools/registry.py and tools/manifest_text.py."""
import json, os, sys
V = os.path.dirname(os.path.dirname(os.path.abspath(__file__)))
sys.path.insert(0, os.path.join(V, 'tools'))
import registry, manifest_text as T

props = [json.loads(l) for l in open(os.path.join(V, 'properties.jsonl'))]
checks, na = [], []
for p in props:
    pid = p['id']
    if pid in registry.PROPS and pid in T.LEVEL:
        checks.append({
            'property_id': pid,
            'quick_cmd': './check %s quick' % pid,
            'thorough_cmd': './check %s thorough' % pid,
            'evidence_file': '/verif/evidence/%s.json' % pid,
            'replay_cmd_template': './check %s --replay {path}' % pid,
            'engine': '+'.join(registry.PROPS[pid]['engines']),
            'level_claimed': {'category': 'proof', 'text': T.LEVEL[pid], 'design_ref': 'DESIGN.md §4 ' + pid},
            'level_note': T.NOTE[pid],
            'technique': T.TECH.get(pid, 'Lean 4 theorems over an executable model + differential correspondence against the real code'),
        })
    else:
        na.append({'property_id': pid, 'reason': T.NA.get(pid, 'check not built yet in this session; the Lean-proof technique applies (see DESIGN.md §4) — not claimed until its model, theorems and correspondence run')})
engines = []
for e in registry.ENGINES:
    engines.append({'name': e, 'path': '/verif/harness/%s.go + /verif/lean/Driver' % e,
                    'serves_properties': [p for p, s in registry.PROPS.items() if e in s['engines']],
                    'kind_free_text': T.ENGINE.get(e, '')})
m = {
    'version': 1,
    'setup_cmd': './setup.sh',
    'hooks': {
        'guard': 'verif',
        'enable': 'none needed in /repo: the harness and its in-package accessor files live in /verif/harness and are compiled into the sso module with `go build -overlay` (tools/buildharness.sh) from /repo\'s current working tree; /repo is never edited by the machinery',
        'baseline_off_cmd': 'for m in $(cat /w/out/gomods.txt); do MF=$(cd /repo/$m && . /w/out/goenv.sh && gomodflag); (cd /repo/$m && go test $MF -json -vet=off -count=1 -timeout 25m ./...); done',
        'source_commits': T.SOURCE_COMMITS,
        'add_only': True,
    },
    'engines': engines,
    'checks': checks,
    'notes': T.NOTES,
    'not_applicable': na,
}
json.dump(m, open(os.path.join(V, 'MANIFEST.json'), 'w'), indent=1)
print('checks:', len(checks), 'not_applicable:', len(na))
