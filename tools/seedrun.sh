#!/bin/bash
# usage: seedrun.sh <seeded-dir> <check id>...   apply seeded patch to /repo, run the checks (quick), undo.
set -u
d=$(realpath $1); shift
cd /verif
[ -z "$(git -C /repo status --porcelain)" ] || { echo "/repo not clean"; exit 2; }
trap 'git -C /repo checkout -- . ; git -C /repo status --porcelain' EXIT
git -C /repo apply $d/patch.diff || exit 2
for id in "$@"; do
  echo "--- check $id ${TIER:-quick}"
  ./check $id ${TIER:-quick} 2>&1 | grep -E '^(VIOLATION|OK|KNOWN-FINDING|ERROR|BROKEN)|theorem|diff' | head -12
  echo "exit=${PIPESTATUS[0]}"
done
