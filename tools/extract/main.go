// Command extract reads buzzfeed/sso's current source (go/parser + go/ast only) and writes the Lean
// module Generated/Facts.lean: the declarative facts the model is instantiated with and the spec
// theorems are stated about (T1 in DESIGN.md). It is deliberately small and syntactic.
//
// usage: extract <repo> <out.lean> <problems.json>
package main

import (
	"encoding/json"
	"fmt"
	"go/ast"
	"go/parser"
	"go/token"
	"os"
	"path/filepath"
	"sort"
	"strconv"
	"strings"
)

type problem struct {
	Fact  string   `json:"fact"`
	Props []string `json:"props"`
	Why   string   `json:"why"`
}

var (
	repo     string
	out      strings.Builder
	problems []problem
	names    []string
	fset     = token.NewFileSet()
	files    = map[string]*ast.File{}
)

func parse(rel string) *ast.File {
	if f, ok := files[rel]; ok {
		return f
	}
	f, err := parser.ParseFile(fset, filepath.Join(repo, rel), nil, parser.ParseComments)
	if err != nil {
		files[rel] = nil
		return nil
	}
	files[rel] = f
	return f
}

func leanStr(s string) string {
	var b strings.Builder
	b.WriteByte('"')
	for _, r := range s {
		switch {
		case r == '"':
			b.WriteString("\\\"")
		case r == '\\':
			b.WriteString("\\\\")
		case r == '\n':
			b.WriteString("\\n")
		case r == '\t':
			b.WriteString("\\t")
		case r == '\r':
			b.WriteString("\\r")
		case r < 32 || r == 127:
			b.WriteString(fmt.Sprintf("\\x%02x", r))
		default:
			b.WriteRune(r)
		}
	}
	b.WriteByte('"')
	return b.String()
}

func leanStrList(ss []string) string {
	q := make([]string, len(ss))
	for i, s := range ss {
		q[i] = leanStr(s)
	}
	return "[" + strings.Join(q, ", ") + "]"
}

func fail(fact string, props []string, why string) {
	problems = append(problems, problem{fact, props, why})
	// the definition is omitted, so every Lean file that mentions it stops compiling (tie broken, by name)
	fmt.Fprintf(&out, "-- MISSING %s: %s\n", fact, why)
}

func emitStrList(fact string, props []string, v []string) {
	names = append(names, fact)
	fmt.Fprintf(&out, "/-- serves %s -/\ndef %s : List String := %s\n\n", strings.Join(props, " "), fact, leanStrList(v))
}

func findFunc(f *ast.File, recv, name string) *ast.FuncDecl {
	if f == nil {
		return nil
	}
	for _, d := range f.Decls {
		fd, ok := d.(*ast.FuncDecl)
		if !ok || fd.Name.Name != name {
			continue
		}
		if recv == "" {
			if fd.Recv == nil {
				return fd
			}
			continue
		}
		if fd.Recv == nil || len(fd.Recv.List) == 0 {
			continue
		}
		t := fd.Recv.List[0].Type
		if st, ok := t.(*ast.StarExpr); ok {
			t = st.X
		}
		if id, ok := t.(*ast.Ident); ok && id.Name == recv {
			return fd
		}
	}
	return nil
}

// ---------------------------------------------------------------- skeletons

// skeleton flattens a function body into control tokens and the names of every call, in source order.
func skeleton(body *ast.BlockStmt) []string {
	var toks []string
	var stmt func(s ast.Stmt)
	var expr func(e ast.Node)
	callName := func(c *ast.CallExpr) string {
		switch f := c.Fun.(type) {
		case *ast.Ident:
			return f.Name
		case *ast.SelectorExpr:
			return f.Sel.Name
		case *ast.FuncLit:
			return "funclit"
		}
		return "?"
	}
	// logging and metrics are not part of a skeleton: calls on the logger (`logger.…`, `log.NewLogEntry()…`), on the statsd
	// client, and the bookkeeping of their `tags` may come and go without any theorem noticing
	var rootIdent func(e ast.Expr) (string, bool)
	rootIdent = func(e ast.Expr) (string, bool) {
		switch t := e.(type) {
		case *ast.Ident:
			return t.Name, false
		case *ast.SelectorExpr:
			r, st := rootIdent(t.X)
			return r, st || t.Sel.Name == "StatsdClient" || t.Sel.Name == "statsdClient" || t.Sel.Name == "metrics"
		case *ast.CallExpr:
			return rootIdent(t.Fun)
		}
		return "", false
	}
	observability := func(c *ast.CallExpr) bool {
		r, statsd := rootIdent(c.Fun)
		return statsd || r == "logger" || r == "log"
	}
	expr = func(e ast.Node) {
		if e == nil {
			return
		}
		ast.Inspect(e, func(n ast.Node) bool {
			switch x := n.(type) {
			case *ast.FuncLit:
				toks = append(toks, "func{")
				for _, s := range x.Body.List {
					stmt(s)
				}
				toks = append(toks, "}")
				return false
			case *ast.CallExpr:
				if observability(x) {
					return false
				}
				// arguments first (evaluation order), then the call itself
				for _, a := range x.Args {
					expr(a)
				}
				if fl, ok := x.Fun.(*ast.FuncLit); ok {
					expr(fl)
				} else if se, ok := x.Fun.(*ast.SelectorExpr); ok {
					expr(se.X)
				}
				toks = append(toks, "call:"+callName(x))
				return false
			}
			return true
		})
	}
	block := func(b *ast.BlockStmt) {
		if b == nil {
			return
		}
		for _, s := range b.List {
			stmt(s)
		}
	}
	stmt = func(s ast.Stmt) {
		switch x := s.(type) {
		case *ast.DeferStmt:
			if fl, ok := x.Call.Fun.(*ast.FuncLit); ok {
				toks = append(toks, "defer{")
				block(fl.Body)
				toks = append(toks, "}")
			} else {
				toks = append(toks, "defer:"+callName(x.Call))
			}
		case *ast.GoStmt:
			if fl, ok := x.Call.Fun.(*ast.FuncLit); ok {
				toks = append(toks, "go{")
				block(fl.Body)
				toks = append(toks, "}")
			} else {
				toks = append(toks, "go:"+callName(x.Call))
			}
		case *ast.ReturnStmt:
			for _, r := range x.Results {
				expr(r)
			}
			toks = append(toks, "return")
		case *ast.IfStmt:
			if x.Init != nil {
				stmt(x.Init)
			}
			expr(x.Cond)
			toks = append(toks, "if{")
			block(x.Body)
			toks = append(toks, "}")
			if x.Else != nil {
				toks = append(toks, "else{")
				switch e := x.Else.(type) {
				case *ast.BlockStmt:
					block(e)
				default:
					stmt(e)
				}
				toks = append(toks, "}")
			}
		case *ast.ForStmt:
			toks = append(toks, "for{")
			block(x.Body)
			toks = append(toks, "}")
		case *ast.RangeStmt:
			expr(x.X)
			toks = append(toks, "range{")
			block(x.Body)
			toks = append(toks, "}")
		case *ast.SwitchStmt:
			if x.Init != nil {
				stmt(x.Init)
			}
			expr(x.Tag)
			toks = append(toks, "switch{")
			for _, c := range x.Body.List {
				cc := c.(*ast.CaseClause)
				lbl := "case"
				if cc.List == nil {
					lbl = "default"
				} else {
					var ls []string
					for _, e := range cc.List {
						ls = append(ls, exprString(e))
					}
					lbl = "case " + strings.Join(ls, ",")
				}
				toks = append(toks, lbl+"{")
				for _, s := range cc.Body {
					stmt(s)
				}
				toks = append(toks, "}")
			}
			toks = append(toks, "}")
		case *ast.TypeSwitchStmt:
			toks = append(toks, "typeswitch{")
			for _, c := range x.Body.List {
				cc := c.(*ast.CaseClause)
				toks = append(toks, "case{")
				for _, s := range cc.Body {
					stmt(s)
				}
				toks = append(toks, "}")
			}
			toks = append(toks, "}")
		case *ast.SelectStmt:
			toks = append(toks, "select{")
			for _, c := range x.Body.List {
				cc := c.(*ast.CommClause)
				if cc.Comm == nil {
					toks = append(toks, "default{")
				} else {
					toks = append(toks, "comm{")
					stmt(cc.Comm)
				}
				for _, s := range cc.Body {
					stmt(s)
				}
				toks = append(toks, "}")
			}
			toks = append(toks, "}")
		case *ast.BlockStmt:
			block(x)
		case *ast.ExprStmt:
			expr(x.X)
		case *ast.AssignStmt:
			onlyBookkeeping := len(x.Lhs) > 0
			for _, l := range x.Lhs {
				if id, ok := l.(*ast.Ident); !ok || (id.Name != "tags" && id.Name != "logger") {
					onlyBookkeeping = false
				}
			}
			if onlyBookkeeping {
				return
			}
			for _, r := range x.Rhs {
				expr(r)
			}
			// writes to map entries / fields are part of the skeleton of the concurrent code
			for _, l := range x.Lhs {
				switch t := l.(type) {
				case *ast.IndexExpr:
					toks = append(toks, "store:"+exprString(t.X)+"[]")
				case *ast.SelectorExpr:
					toks = append(toks, "store:"+exprString(t))
				}
			}
		case *ast.IncDecStmt:
			toks = append(toks, "incdec:"+exprString(x.X)+x.Tok.String())
		case *ast.DeclStmt:
			expr(x)
		case *ast.SendStmt:
			toks = append(toks, "send")
		case *ast.BranchStmt:
			toks = append(toks, strings.ToLower(x.Tok.String()))
		case *ast.LabeledStmt:
			stmt(x.Stmt)
		}
	}
	block(body)
	return toks
}

func exprString(e ast.Expr) string {
	switch x := e.(type) {
	case *ast.Ident:
		return x.Name
	case *ast.SelectorExpr:
		return exprString(x.X) + "." + x.Sel.Name
	case *ast.BasicLit:
		return x.Value
	case *ast.StarExpr:
		return "*" + exprString(x.X)
	case *ast.IndexExpr:
		return exprString(x.X) + "[" + exprString(x.Index) + "]"
	case *ast.CallExpr:
		var as []string
		for _, a := range x.Args {
			as = append(as, exprString(a))
		}
		return exprString(x.Fun) + "(" + strings.Join(as, ",") + ")"
	case *ast.BinaryExpr:
		return exprString(x.X) + x.Op.String() + exprString(x.Y)
	case *ast.UnaryExpr:
		return x.Op.String() + exprString(x.X)
	case *ast.ParenExpr:
		return "(" + exprString(x.X) + ")"
	case *ast.CompositeLit:
		var as []string
		for _, a := range x.Elts {
			as = append(as, exprString(a))
		}
		t := ""
		if x.Type != nil {
			t = exprString(x.Type)
		}
		return t + "{" + strings.Join(as, ",") + "}"
	case *ast.KeyValueExpr:
		return exprString(x.Key) + ":" + exprString(x.Value)
	case *ast.ArrayType:
		return "[]" + exprString(x.Elt)
	case *ast.FuncLit:
		return "func"
	case *ast.TypeAssertExpr:
		return exprString(x.X) + ".(type)"
	case *ast.SliceExpr:
		return exprString(x.X) + "[:]"
	case *ast.MapType:
		return "map[" + exprString(x.Key) + "]" + exprString(x.Value)
	}
	return "?"
}

func skeletonFact(fact string, props []string, rel, recv, fn string) {
	fd := findFunc(parse(rel), recv, fn)
	if fd == nil || fd.Body == nil {
		fail(fact, props, fmt.Sprintf("function %s.%s not found in %s", recv, fn, rel))
		return
	}
	emitStrList(fact, props, skeleton(fd.Body))
}

func emitPairList(fact string, props []string, v [][2]string) {
	names = append(names, fact)
	q := make([]string, len(v))
	for i, p := range v {
		q[i] = "(" + leanStr(p[0]) + ", " + leanStr(p[1]) + ")"
	}
	fmt.Fprintf(&out, "/-- serves %s -/\ndef %s : List (String × String) := [%s]\n\n", strings.Join(props, " "), fact, strings.Join(q, ", "))
}

func emitStr(fact string, props []string, v string) {
	names = append(names, fact)
	fmt.Fprintf(&out, "/-- serves %s -/\ndef %s : String := %s\n\n", strings.Join(props, " "), fact, leanStr(v))
}

// sfKeys: every `p.do("<endpoint>", <key expr>, …)` call in a singleflight middleware, in source order,
// and the composite-key expression inside `do`.
func sfKeys(suffix string, props []string, rel string) {
	f := parse(rel)
	if f == nil {
		fail("sf_keys_"+suffix, props, rel+" does not parse")
		fail("sf_endpoints_"+suffix, props, rel+" does not parse")
		return
	}
	var pairs [][2]string
	var eps []string
	ast.Inspect(f, func(n ast.Node) bool {
		c, ok := n.(*ast.CallExpr)
		if !ok {
			return true
		}
		se, ok := c.Fun.(*ast.SelectorExpr)
		if !ok || se.Sel.Name != "do" || len(c.Args) != 3 {
			return true
		}
		lit, ok := c.Args[0].(*ast.BasicLit)
		if !ok {
			return true
		}
		pairs = append(pairs, [2]string{unq(lit.Value), exprString(c.Args[1])})
		eps = append(eps, unq(lit.Value))
		return true
	})
	if len(pairs) == 0 {
		fail("sf_keys_"+suffix, props, "no p.do(...) call found in "+rel)
		fail("sf_endpoints_"+suffix, props, "no p.do(...) call found in "+rel)
		return
	}
	emitPairList("sf_keys_"+suffix, props, pairs)
	emitStrList("sf_endpoints_"+suffix, props, eps)
}

func sfDoKey(props []string, rels ...string) {
	var found []string
	for _, rel := range rels {
		fd := findFunc(parse(rel), "SingleFlightProvider", "do")
		if fd == nil {
			fail("sf_do_key", props, "SingleFlightProvider.do not found in "+rel)
			return
		}
		for _, st := range fd.Body.List {
			as, ok := st.(*ast.AssignStmt)
			if ok && len(as.Lhs) == 1 && exprString(as.Lhs[0]) == "compositeKey" {
				found = append(found, exprString(as.Rhs[0]))
			}
		}
	}
	if len(found) != len(rels) {
		fail("sf_do_key", props, "compositeKey assignment not found")
		return
	}
	for _, f := range found[1:] {
		if f != found[0] {
			fail("sf_do_key", props, "the two middlewares build composite keys differently")
			return
		}
	}
	emitStr("sf_do_key", props, found[0])
}

func emitNatList(fact string, props []string, v []int) {
	names = append(names, fact)
	q := make([]string, len(v))
	for i, n := range v {
		q[i] = strconv.Itoa(n)
	}
	fmt.Fprintf(&out, "/-- serves %s -/\ndef %s : List Nat := [%s]\n\n", strings.Join(props, " "), fact, strings.Join(q, ", "))
}

var httpStatus = map[string]int{"StatusOK": 200, "StatusCreated": 201, "StatusAccepted": 202, "StatusBadRequest": 400, "StatusUnauthorized": 401,
	"StatusForbidden": 403, "StatusNotFound": 404, "StatusRequestTimeout": 408, "StatusTooManyRequests": 429, "StatusInternalServerError": 500,
	"StatusNotImplemented": 501, "StatusBadGateway": 502, "StatusServiceUnavailable": 503, "StatusGatewayTimeout": 504}

// statusSetFact: a predicate of the form `return x == http.A || x == http.B || …` (or numeric literals)
func statusSetFact(fact string, props []string, rel, fn string) {
	fd := findFunc(parse(rel), "", fn)
	if fd == nil || fd.Body == nil || len(fd.Body.List) != 1 {
		fail(fact, props, fn+" not found or not a single return in "+rel)
		return
	}
	ret, ok := fd.Body.List[0].(*ast.ReturnStmt)
	if !ok || len(ret.Results) != 1 {
		fail(fact, props, fn+" is not a single return")
		return
	}
	var codes []int
	bad := false
	var walk func(e ast.Expr)
	walk = func(e ast.Expr) {
		switch x := e.(type) {
		case *ast.ParenExpr:
			walk(x.X)
		case *ast.BinaryExpr:
			if x.Op == token.LOR {
				walk(x.X)
				walk(x.Y)
				return
			}
			if x.Op != token.EQL {
				bad = true
				return
			}
			switch y := x.Y.(type) {
			case *ast.SelectorExpr:
				if c, ok := httpStatus[y.Sel.Name]; ok {
					codes = append(codes, c)
				} else {
					bad = true
				}
			case *ast.BasicLit:
				n, err := strconv.Atoi(y.Value)
				if err != nil {
					bad = true
				}
				codes = append(codes, n)
			default:
				bad = true
			}
		default:
			bad = true
		}
	}
	walk(ret.Results[0])
	if bad {
		fail(fact, props, fn+" has a shape the extractor does not understand: "+exprString(ret.Results[0]))
		return
	}
	sort.Ints(codes)
	emitNatList(fact, props, codes)
}

// muxRoutes: `<mux>.HandleFunc("<path>", p.<Handler>)` and `<mux>.PathPrefix("<prefix>").HandlerFunc(p.<Handler>)` inside one function
func muxRoutes(fact string, props []string, rel, recv, fn string) {
	fd := findFunc(parse(rel), recv, fn)
	if fd == nil || fd.Body == nil {
		fail(fact, props, fn+" not found in "+rel)
		return
	}
	var pairs [][2]string
	ast.Inspect(fd.Body, func(n ast.Node) bool {
		c, ok := n.(*ast.CallExpr)
		if !ok {
			return true
		}
		se, ok := c.Fun.(*ast.SelectorExpr)
		if !ok {
			return true
		}
		if se.Sel.Name == "HandleFunc" && len(c.Args) == 2 {
			if lit, ok := c.Args[0].(*ast.BasicLit); ok {
				pairs = append(pairs, [2]string{unq(lit.Value), exprString(c.Args[1])})
			}
			return false
		}
		if se.Sel.Name == "HandlerFunc" && len(c.Args) == 1 {
			if inner, ok := se.X.(*ast.CallExpr); ok {
				if ise, ok := inner.Fun.(*ast.SelectorExpr); ok && ise.Sel.Name == "PathPrefix" && len(inner.Args) == 1 {
					if lit, ok := inner.Args[0].(*ast.BasicLit); ok {
						pairs = append(pairs, [2]string{"prefix:" + unq(lit.Value), exprString(c.Args[0])})
					}
				}
			}
			return false
		}
		return true
	})
	if len(pairs) == 0 {
		fail(fact, props, "no routes found in "+fn)
		return
	}
	emitPairList(fact, props, pairs)
}

// mapLiteral: `var <name> = map[string]string{ "k": "v", … }` at package level, sorted by key
func mapLiteral(fact string, props []string, rel, name string) {
	f := parse(rel)
	if f == nil {
		fail(fact, props, rel+" does not parse")
		return
	}
	for _, d := range f.Decls {
		gd, ok := d.(*ast.GenDecl)
		if !ok {
			continue
		}
		for _, sp := range gd.Specs {
			vs, ok := sp.(*ast.ValueSpec)
			if !ok || len(vs.Names) != 1 || vs.Names[0].Name != name || len(vs.Values) != 1 {
				continue
			}
			cl, ok := vs.Values[0].(*ast.CompositeLit)
			if !ok {
				continue
			}
			var pairs [][2]string
			for _, e := range cl.Elts {
				kv, ok := e.(*ast.KeyValueExpr)
				if !ok {
					fail(fact, props, "non key-value element in "+name)
					return
				}
				k, ok1 := kv.Key.(*ast.BasicLit)
				v, ok2 := kv.Value.(*ast.BasicLit)
				if !ok1 || !ok2 {
					fail(fact, props, "non-literal entry in "+name)
					return
				}
				pairs = append(pairs, [2]string{unq(k.Value), unq(v.Value)})
			}
			sort.Slice(pairs, func(i, j int) bool { return pairs[i][0] < pairs[j][0] })
			emitPairList(fact, props, pairs)
			return
		}
	}
	fail(fact, props, name+" not found in "+rel)
}

// headerDeletes: inside the function literal assigned to `ModifyResponse`, every `<x>.Header.Del(<arg>)`:
// a literal argument is reported verbatim, a deletion inside `for key := range <M>` as "range:<M>"
func headerDeletes(fact string, props []string, rel string) {
	f := parse(rel)
	if f == nil {
		fail(fact, props, rel+" does not parse")
		return
	}
	var lit *ast.FuncLit
	ast.Inspect(f, func(n ast.Node) bool {
		kv, ok := n.(*ast.KeyValueExpr)
		if ok {
			if id, ok := kv.Key.(*ast.Ident); ok && id.Name == "ModifyResponse" {
				if fl, ok := kv.Value.(*ast.FuncLit); ok {
					lit = fl
				}
			}
		}
		return true
	})
	if lit == nil {
		fail(fact, props, "ModifyResponse function literal not found in "+rel)
		return
	}
	var out []string
	var walk func(n ast.Node, rangeOf string)
	walk = func(n ast.Node, rangeOf string) {
		ast.Inspect(n, func(m ast.Node) bool {
			switch x := m.(type) {
			case *ast.RangeStmt:
				if x != n {
					walk(x.Body, exprString(x.X))
					return false
				}
			case *ast.CallExpr:
				if se, ok := x.Fun.(*ast.SelectorExpr); ok && se.Sel.Name == "Del" && len(x.Args) == 1 {
					if bl, ok := x.Args[0].(*ast.BasicLit); ok {
						out = append(out, unq(bl.Value))
					} else if rangeOf != "" {
						out = append(out, "range:"+rangeOf)
					} else {
						out = append(out, "expr:"+exprString(x.Args[0]))
					}
				}
			}
			return true
		})
	}
	walk(lit.Body, "")
	emitStrList(fact, props, out)
}

// stringSliceVar: `var <name> = []string{ "a", "b", … }` at package level, in source order
func stringSliceVar(fact string, props []string, rel, name string) {
	f := parse(rel)
	if f == nil {
		fail(fact, props, rel+" does not parse")
		return
	}
	for _, d := range f.Decls {
		gd, ok := d.(*ast.GenDecl)
		if !ok {
			continue
		}
		for _, sp := range gd.Specs {
			vs, ok := sp.(*ast.ValueSpec)
			if !ok || len(vs.Names) != 1 || vs.Names[0].Name != name || len(vs.Values) != 1 {
				continue
			}
			cl, ok := vs.Values[0].(*ast.CompositeLit)
			if !ok {
				continue
			}
			var out []string
			for _, e := range cl.Elts {
				bl, ok := e.(*ast.BasicLit)
				if !ok {
					fail(fact, props, "non-literal element in "+name)
					return
				}
				out = append(out, unq(bl.Value))
			}
			emitStrList(fact, props, out)
			return
		}
	}
	fail(fact, props, name+" not found in "+rel)
}

// gatedRoutes: `<mux>.HandleFunc("<path>", p.withMethods(p.g1(p.g2(p.Handler)), "M1", "M2"))` → one string per route:
// "<path>|<M1,M2>|<g1,g2>|<Handler>" (gates outermost first)
func gatedRoutes(fact string, props []string, rel, recv, fn string) {
	fd := findFunc(parse(rel), recv, fn)
	if fd == nil || fd.Body == nil {
		fail(fact, props, fn+" not found in "+rel)
		return
	}
	var outl []string
	bad := ""
	ast.Inspect(fd.Body, func(n ast.Node) bool {
		c, ok := n.(*ast.CallExpr)
		if !ok {
			return true
		}
		se, ok := c.Fun.(*ast.SelectorExpr)
		if !ok || se.Sel.Name != "HandleFunc" || len(c.Args) != 2 {
			return true
		}
		lit, ok := c.Args[0].(*ast.BasicLit)
		if !ok {
			return true
		}
		var methods, gates []string
		handler := ""
		cur := c.Args[1]
		for {
			call, ok := cur.(*ast.CallExpr)
			if !ok {
				handler = exprString(cur)
				break
			}
			name := exprString(call.Fun)
			name = strings.TrimPrefix(name, "p.")
			if name == "withMethods" {
				for _, a := range call.Args[1:] {
					if bl, ok := a.(*ast.BasicLit); ok {
						methods = append(methods, unq(bl.Value))
					}
				}
				gates = append(gates, "withMethods")
			} else {
				gates = append(gates, name)
			}
			if len(call.Args) == 0 {
				bad = "wrapper without argument at " + unq(lit.Value)
				break
			}
			cur = call.Args[0]
		}
		outl = append(outl, "("+leanStr(unq(lit.Value))+", "+leanStrList(methods)+", "+leanStrList(gates)+", "+leanStr(strings.TrimPrefix(handler, "p."))+")")
		return false
	})
	if bad != "" || len(outl) == 0 {
		fail(fact, props, "routes of "+fn+": "+bad)
		return
	}
	names = append(names, fact)
	fmt.Fprintf(&out, "/-- serves %s -/\ndef %s : List (String × List String × List String × String) := [%s]\n\n", strings.Join(props, " "), fact, strings.Join(outl, ", "))
}

// templateActions: for every `t.Parse(`…`)` literal in the given files, each value-producing {{…}} action together with the
// HTML context it sits in, found by a small scanner: text | attr-dq:<name> | attr-sq:<name> | attr-unquoted:<name> | tag | rawtext:<elem> | comment
func templateActions(fact, importsFact string, props []string, rels ...string) {
	var triples []string
	var imports []string
	for _, rel := range rels {
		f := parse(rel)
		if f == nil {
			fail(fact, props, rel+" does not parse")
			return
		}
		imp := ""
		for _, is := range f.Imports {
			if p := unq(is.Path.Value); p == "html/template" || p == "text/template" {
				imp = p
			}
		}
		imports = append(imports, imp)
		ast.Inspect(f, func(n ast.Node) bool {
			c, ok := n.(*ast.CallExpr)
			if !ok {
				return true
			}
			se, ok := c.Fun.(*ast.SelectorExpr)
			if !ok || se.Sel.Name != "Parse" || len(c.Args) != 1 {
				return true
			}
			bl, ok := c.Args[0].(*ast.BasicLit)
			if !ok {
				return true
			}
			text := unq(bl.Value)
			name := ""
			state, attr, raw, quote := "text", "", "", byte(0)
			i := 0
			for i < len(text) {
				if strings.HasPrefix(text[i:], "{{") {
					j := strings.Index(text[i:], "}}")
					if j < 0 {
						break
					}
					act := strings.TrimSpace(strings.Trim(text[i+2:i+j], "-"))
					i += j + 2
					fields := strings.Fields(act)
					kw := ""
					if len(fields) > 0 {
						kw = fields[0]
					}
					switch kw {
					case "define":
						if len(fields) > 1 {
							name = strings.Trim(fields[1], "\"")
						}
						state, attr, raw = "text", "", ""
					case "if", "else", "end", "range", "template", "with", "block":
					default:
						ctx := state
						switch state {
						case "attr-dq", "attr-sq", "attr-unquoted":
							ctx = state + ":" + attr
						case "rawtext":
							ctx = "rawtext:" + raw
						}
						triples = append(triples, "("+leanStr(name)+", "+leanStr(act)+", "+leanStr(ctx)+")")
					}
					continue
				}
				ch := text[i]
				switch state {
				case "text":
					if strings.HasPrefix(text[i:], "<!--") {
						state = "comment"
						i += 4
						continue
					}
					if ch == '<' && i+1 < len(text) && (text[i+1] == '/' || (text[i+1]|0x20 >= 'a' && text[i+1]|0x20 <= 'z')) {
						k := i + 1
						if text[k] == '/' {
							k++
						}
						e := k
						for e < len(text) && (text[e]|0x20 >= 'a' && text[e]|0x20 <= 'z' || text[e] >= '0' && text[e] <= '9') {
							e++
						}
						el := strings.ToLower(text[k:e])
						if text[i+1] != '/' && (el == "script" || el == "style") {
							raw = el
						} else {
							raw = ""
						}
						state, attr = "tag", ""
						i = e
						continue
					}
				case "comment":
					if strings.HasPrefix(text[i:], "-->") {
						state = "text"
						i += 3
						continue
					}
				case "rawtext":
					if strings.HasPrefix(strings.ToLower(text[i:]), "</"+raw) {
						state, raw = "text", ""
						continue
					}
				case "tag":
					switch {
					case ch == '>':
						if raw != "" {
							state = "rawtext"
						} else {
							state = "text"
						}
					case ch == '=':
						k := i + 1
						for k < len(text) && (text[k] == ' ' || text[k] == '\n' || text[k] == '\t') {
							k++
						}
						if k < len(text) && text[k] == '"' {
							state, quote, i = "attr-dq", '"', k+1
							continue
						} else if k < len(text) && text[k] == '\'' {
							state, quote, i = "attr-sq", '\'', k+1
							continue
						}
						state, i = "attr-unquoted", k
						continue
					case ch|0x20 >= 'a' && ch|0x20 <= 'z' || ch == '-':
						e := i
						for e < len(text) && (text[e]|0x20 >= 'a' && text[e]|0x20 <= 'z' || text[e] == '-' || text[e] >= '0' && text[e] <= '9') {
							e++
						}
						attr = strings.ToLower(text[i:e])
						i = e
						continue
					}
				case "attr-dq", "attr-sq":
					if ch == quote {
						state = "tag"
					}
				case "attr-unquoted":
					if ch == ' ' || ch == '>' || ch == '\n' {
						state = "tag"
						continue
					}
				}
				i++
			}
			return true
		})
	}
	names = append(names, fact, importsFact)
	fmt.Fprintf(&out, "/-- serves %s -/\ndef %s : List (String × String × String) := [%s]\n\n", strings.Join(props, " "), fact, strings.Join(triples, ",\n  "))
	fmt.Fprintf(&out, "/-- serves %s -/\ndef %s : List String := %s\n\n", strings.Join(props, " "), importsFact, leanStrList(imports))
}

func unq(s string) string {
	u, err := strconv.Unquote(s)
	if err != nil {
		return s
	}
	return u
}

var _ = sort.Strings
var _ = unq

func main() {
	if len(os.Args) != 4 {
		fmt.Fprintln(os.Stderr, "usage: extract <repo> <out.lean> <problems.json>")
		os.Exit(2)
	}
	repo = os.Args[1]
	out.WriteString("/- GENERATED by /verif/tools/extract from the current source tree. Do not edit. -/\nnamespace Sso.Generated\n\n")

	facts()

	out.WriteString("end Sso.Generated\n")
	if err := os.WriteFile(os.Args[2], []byte(out.String()), 0o644); err != nil {
		panic(err)
	}
	pj, _ := json.Marshal(map[string]interface{}{"problems": problems, "names": names})
	if err := os.WriteFile(os.Args[3], pj, 0o644); err != nil {
		panic(err)
	}
}

// trustedTemplateTypes: every use of html/template's "trusted content" types (values of these types are written
// without escaping) in the non-test sources of the given directories, as "file: type".
func trustedTemplateTypes(fact string, props []string, dirs ...string) {
	trusted := map[string]bool{"HTML": true, "HTMLAttr": true, "JS": true, "JSStr": true, "CSS": true, "URL": true, "Srcset": true}
	var out []string
	for _, d := range dirs {
		ents, err := os.ReadDir(filepath.Join(repo, d))
		if err != nil {
			fail(fact, props, d+": "+err.Error())
			return
		}
		for _, e := range ents {
			n := e.Name()
			if e.IsDir() || !strings.HasSuffix(n, ".go") || strings.HasSuffix(n, "_test.go") {
				continue
			}
			f := parse(filepath.Join(d, n))
			if f == nil {
				fail(fact, props, filepath.Join(d, n)+" does not parse")
				return
			}
			ast.Inspect(f, func(x ast.Node) bool {
				se, ok := x.(*ast.SelectorExpr)
				if !ok {
					return true
				}
				if id, ok := se.X.(*ast.Ident); ok && id.Name == "template" && trusted[se.Sel.Name] {
					out = append(out, filepath.Join(d, n)+": template."+se.Sel.Name)
				}
				return true
			})
		}
	}
	sort.Strings(out)
	emitStrList(fact, props, out)
}

// structTags: every field of every struct type declared in one file, with its tag text: "Type.Field `tag`". The decoders
// (mapstructure, yaml) find settings by these tags; a misspelt or "corrected" tag silently re-routes or drops a setting.
func structTags(fact string, props []string, rel string) {
	f := parse(rel)
	if f == nil {
		fail(fact, props, rel+" does not parse")
		return
	}
	var out []string
	for _, d := range f.Decls {
		gd, ok := d.(*ast.GenDecl)
		if !ok {
			continue
		}
		for _, sp := range gd.Specs {
			ts, ok := sp.(*ast.TypeSpec)
			if !ok {
				continue
			}
			st, ok := ts.Type.(*ast.StructType)
			if !ok {
				continue
			}
			for _, fld := range st.Fields.List {
				tag := ""
				if fld.Tag != nil {
					tag = strings.Trim(fld.Tag.Value, "`")
				}
				if len(fld.Names) == 0 {
					out = append(out, ts.Name.Name+".(embedded) "+tag)
				}
				for _, n := range fld.Names {
					out = append(out, ts.Name.Name+"."+n.Name+" "+tag)
				}
			}
		}
	}
	emitStrList(fact, props, out)
}

// textTemplateImporters: every non-test file of the given directories that imports text/template (which does not escape).
func textTemplateImporters(fact string, props []string, dirs ...string) {
	out := []string{}
	for _, d := range dirs {
		ents, err := os.ReadDir(filepath.Join(repo, d))
		if err != nil {
			fail(fact, props, d+": "+err.Error())
			return
		}
		for _, e := range ents {
			n := e.Name()
			if e.IsDir() || !strings.HasSuffix(n, ".go") || strings.HasSuffix(n, "_test.go") {
				continue
			}
			f := parse(filepath.Join(d, n))
			if f == nil {
				fail(fact, props, filepath.Join(d, n)+" does not parse")
				return
			}
			for _, im := range f.Imports {
				if im.Path != nil && im.Path.Value == `"text/template"` {
					out = append(out, filepath.Join(d, n))
				}
			}
		}
	}
	sort.Strings(out)
	emitStrList(fact, props, out)
}

// compositeLitKeys: the field names given in every composite literal of type <pkg>.<typ> inside one function
// (e.g. mapstructure.DecoderConfig{DecodeHook: …, Result: …}) — each literal as one comma-joined string.
func compositeLitKeys(fact string, props []string, rel, recv, fn, pkg, typ string) {
	fd := findFunc(parse(rel), recv, fn)
	if fd == nil || fd.Body == nil {
		fail(fact, props, fmt.Sprintf("function %s.%s not found in %s", recv, fn, rel))
		return
	}
	var out []string
	ast.Inspect(fd.Body, func(x ast.Node) bool {
		cl, ok := x.(*ast.CompositeLit)
		if !ok {
			return true
		}
		se, ok := cl.Type.(*ast.SelectorExpr)
		if !ok || se.Sel.Name != typ {
			return true
		}
		if id, ok := se.X.(*ast.Ident); !ok || id.Name != pkg {
			return true
		}
		var keys []string
		for _, e := range cl.Elts {
			if kv, ok := e.(*ast.KeyValueExpr); ok {
				if k, ok := kv.Key.(*ast.Ident); ok {
					keys = append(keys, k.Name)
				}
			}
		}
		out = append(out, strings.Join(keys, ","))
		return true
	})
	emitStrList(fact, props, out)
}
