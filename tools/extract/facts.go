package main

// facts lists every generated fact: name, the properties it serves, where it comes from.
func facts() {
	brk := "internal/auth/circuit/breaker.go"
	skeletonFact("skel_breaker_Call", []string{"C15"}, brk, "Breaker", "Call")
	skeletonFact("skel_breaker_beforeRequest", []string{"C15"}, brk, "Breaker", "beforeRequest")
	skeletonFact("skel_breaker_afterRequest", []string{"C15"}, brk, "Breaker", "afterRequest")
	skeletonFact("skel_breaker_onSuccess", []string{"C15"}, brk, "Breaker", "onSuccess")
	skeletonFact("skel_breaker_onFailure", []string{"C15"}, brk, "Breaker", "onFailure")
	skeletonFact("skel_breaker_currentState", []string{"C15"}, brk, "Breaker", "currentState")
	skeletonFact("skel_breaker_setState", []string{"C15"}, brk, "Breaker", "setState")
	skeletonFact("skel_breaker_setBackoff", []string{"C15"}, brk, "Breaker", "setBackoff")

	sf := "internal/pkg/singleflight/singleflight.go"
	skeletonFact("skel_singleflight_Do", []string{"C16"}, sf, "Group", "Do")
	sfKeys("proxy", []string{"C16"}, "internal/proxy/providers/singleflight_middleware.go")
	sfKeys("auth", []string{"C16"}, "internal/auth/providers/singleflight_middleware.go")
	sfDoKey([]string{"C16"}, "internal/proxy/providers/singleflight_middleware.go", "internal/auth/providers/singleflight_middleware.go")

	fc := "internal/pkg/groups/fillcache.go"
	skeletonFact("skel_fillcache_Update", []string{"C17"}, fc, "FillCache", "Update")
	skeletonFact("skel_fillcache_RefreshLoop", []string{"C17"}, fc, "FillCache", "RefreshLoop")
	skeletonFact("skel_fillcache_Get", []string{"C17"}, fc, "FillCache", "Get")
	skeletonFact("skel_groupcache_ValidateGroupMembership", []string{"C17"}, "internal/auth/providers/group_cache.go", "GroupCache", "ValidateGroupMembership")
	skeletonFact("skel_google_ValidateGroupMembership", []string{"C17"}, "internal/auth/providers/google.go", "GoogleProvider", "ValidateGroupMembership")
	skeletonFact("skel_cognito_ValidateGroupMembership", []string{"C17"}, "internal/auth/providers/amazon_cognito.go", "AmazonCognitoProvider", "ValidateGroupMembership")

	statusSetFact("unavailableStatuses", []string{"C05", "C04"}, "internal/proxy/providers/sso.go", "isProviderUnavailable")

	muxRoutes("proxyRoutes", []string{"C01", "C06", "C13", "C18", "C19"}, "internal/proxy/oauthproxy.go", "OAuthProxy", "Handler")
	skeletonFact("skel_proxy_Handler", []string{"C01", "C18"}, "internal/proxy/oauthproxy.go", "OAuthProxy", "Handler")
	skeletonFact("skel_proxy_Proxy", []string{"C01"}, "internal/proxy/oauthproxy.go", "OAuthProxy", "Proxy")
	skeletonFact("skel_hostmux_Route", []string{"C13"}, "internal/pkg/hostmux/hostmux.go", "Router", "Route")

	mapLiteral("proxySecurityHeaders", []string{"C18"}, "internal/proxy/middleware.go", "securityHeaders")
	headerDeletes("modifyResponseDeletes", []string{"C18"}, "internal/proxy/reverse_proxy.go")
	skeletonFact("skel_proxy_requireHTTPS", []string{"C18"}, "internal/proxy/middleware.go", "", "requireHTTPS")
	skeletonFact("skel_proxy_NewUpstreamReverseProxy", []string{"C18", "C03", "C12"}, "internal/proxy/reverse_proxy.go", "", "NewUpstreamReverseProxy")

	stringSliceVar("signedHeaders", []string{"C12"}, "internal/proxy/request_signer.go", "signedHeaders")
	stringSliceVar("signatureHeaders", []string{"C12"}, "internal/proxy/oauthproxy.go", "SignatureHeaders")
	skeletonFact("skel_proxy_newSigningHandler", []string{"C12"}, "internal/proxy/reverse_proxy.go", "", "newSigningHandler")
	skeletonFact("skel_proxy_mapRequestToHashInput", []string{"C12"}, "internal/proxy/request_signer.go", "", "mapRequestToHashInput")

	gatedRoutes("authRoutes", []string{"C07", "C08", "C09", "C18", "C19"}, "internal/auth/authenticator.go", "Authenticator", "newMux")
	skeletonFact("skel_auth_newMux", []string{"C18"}, "internal/auth/authenticator.go", "Authenticator", "newMux")
	mapLiteral("authSecurityHeaders", []string{"C18"}, "internal/auth/middleware.go", "securityHeaders")
	skeletonFact("skel_auth_emailFromIDToken", []string{"C10"}, "internal/auth/providers/google.go", "", "emailFromIDToken")
	skeletonFact("skel_auth_SignOut", []string{"C19"}, "internal/auth/authenticator.go", "Authenticator", "SignOut")

	// wiring whose *shape* carries a property: where nonces come from, which provider calls are coalesced at all,
	// one provider (and so one single-flight group) per upstream, where "now" is read
	skeletonFact("skel_aead_Encrypt", []string{"C02", "C06"}, "internal/pkg/aead/aead.go", "MiscreantCipher", "Encrypt")
	skeletonFact("skel_proxy_sf_Redeem", []string{"C06", "C01"}, "internal/proxy/providers/singleflight_middleware.go", "SingleFlightProvider", "Redeem")
	skeletonFact("skel_auth_sf_Redeem", []string{"C10", "C09"}, "internal/auth/providers/singleflight_middleware.go", "SingleFlightProvider", "Redeem")
	skeletonFact("skel_proxy_New", []string{"C13", "C01", "C11"}, "internal/proxy/proxy.go", "", "New")
	skeletonFact("skel_auth_Redeem", []string{"C08"}, "internal/auth/authenticator.go", "Authenticator", "Redeem")
	skeletonFact("skel_auth_validateSignature", []string{"C07", "C19"}, "internal/auth/middleware.go", "Authenticator", "validateSignature")
	skeletonFact("skel_auth_validSignature", []string{"C07", "C19"}, "internal/auth/middleware.go", "", "validSignature")

	templateActions("templateActions", "templateImports", []string{"C20"}, "internal/pkg/templates/templates.go", "internal/proxy/templates.go")
}
