"""Static description of the checks: which spec modules, engines, facts and floors serve each property."""
import os, json, subprocess

V = os.path.dirname(os.path.dirname(os.path.abspath(__file__)))

ENGINE_TIMEOUT = 3000
THOROUGH_PARALLEL = 4
THOROUGH_SEEDS = 4
SEARCH_BUDGET_S = 240

# cases per engine run (after the seed-independent prelude)
ENGINES = {
    'breaker': dict(quick=2000, thorough=30000),
    'sf': dict(quick=400, thorough=8000),
    'sfwrap': dict(quick=600, thorough=20000),
    'caches': dict(quick=1500, thorough=40000),
    'validators': dict(quick=20000, thorough=400000),
    'aead': dict(quick=150, thorough=3000),
    'config': dict(quick=3000, thorough=80000),
    'proxyflow': dict(quick=250, thorough=5000),
    'forward': dict(quick=120, thorough=3000),
    'authflow': dict(quick=150, thorough=4000),
    'htmlesc': dict(quick=3000, thorough=100000),
    'system': dict(quick=40, thorough=1500),
}

PROPS = {
    'C01': dict(spec_mods=['SsoSpec.C01'], engines=['proxyflow', 'sfwrap']),
    'C02': dict(spec_mods=['SsoSpec.C02'], engines=['aead', 'authflow', 'proxyflow']),
    'C03': dict(spec_mods=['SsoSpec.C03'], engines=['forward', 'proxyflow']),
    'C04': dict(spec_mods=['SsoSpec.C04', 'SsoSpec.C04History'], engines=['proxyflow', 'sfwrap', 'config']),
    'C05': dict(spec_mods=['SsoSpec.C05'], engines=['proxyflow', 'config']),
    'C06': dict(spec_mods=['SsoSpec.C06'], engines=['proxyflow', 'sfwrap', 'system']),
    'C07': dict(spec_mods=['SsoSpec.C07'], engines=['authflow', 'system']),
    'C08': dict(spec_mods=['SsoSpec.C08'], engines=['authflow', 'system']),
    'C09': dict(spec_mods=['SsoSpec.C09'], engines=['authflow', 'sfwrap']),
    'C10': dict(spec_mods=['SsoSpec.C10'], engines=['authflow', 'sfwrap', 'system']),
    'C11': dict(spec_mods=['SsoSpec.C11'], engines=['validators', 'proxyflow']),
    'C19': dict(spec_mods=['SsoSpec.C19'], engines=['system', 'authflow', 'proxyflow', 'sfwrap']),
    'C20': dict(spec_mods=['SsoSpec.C20'], engines=['htmlesc', 'authflow', 'proxyflow']),
    'C18': dict(spec_mods=['SsoSpec.C18'], engines=['proxyflow', 'authflow']),
    'C12': dict(spec_mods=['SsoSpec.C12'], engines=['forward', 'config']),
    'C13': dict(spec_mods=['SsoSpec.C13'], engines=['proxyflow', 'config']),
    'C14': dict(spec_mods=['SsoSpec.C14'], engines=['config']),
    'C15': dict(spec_mods=['SsoSpec.C15'], engines=['breaker']),
    'C16': dict(spec_mods=['SsoSpec.C16'], engines=['sf', 'sfwrap', 'proxyflow']),
    'C17': dict(spec_mods=['SsoSpec.C17'], engines=['caches']),
}

# model branches every run must reach (engine:branch); a branch the implementation can no longer reach
# means it no longer behaves like the model on the prelude's representative.
PF_FLOOR = ['proxyflow:overlap/overlapped', 'proxyflow:noCookie', 'proxyflow:invalidSession', 'proxyflow:wrongIdP', 'proxyflow:wrongUpstream', 'proxyflow:lifetimeExpired',
            'proxyflow:fresh/ok', 'proxyflow:fresh/validatorDenied', 'proxyflow:refresh/ok', 'proxyflow:refresh/error', 'proxyflow:validate/ok', 'proxyflow:validate/false',
            'proxyflow:validate/validatorDenied', 'proxyflow:whitelisted', 'proxyflow:misdirected', 'proxyflow:ping', 'proxyflow:clean-redirect',
            'proxyflow:signout', 'proxyflow:robots', 'proxyflow:cb/login', 'proxyflow:cb/denied', 'proxyflow:cb/mismatch', 'proxyflow:cb/sameCiphertext',
            'proxyflow:cb/badState', 'proxyflow:cb/noCsrfCookie', 'proxyflow:cb/badCsrf', 'proxyflow:cb/redeemFailed', 'proxyflow:cb/emptyEmail',
            'proxyflow:cb/noCode', 'proxyflow:cb/errorParam', 'proxyflow:https-redirect', 'proxyflow:favicon/fresh/ok', 'proxyflow:favicon/noCookie']
AF_FLOOR = ['authflow:signin/code', 'authflow:signin/page', 'authflow:signin/error/401', 'authflow:signin/error/403', 'authflow:gate/SignIn/400', 'authflow:gate/SignIn/401',
            'authflow:gate/SignIn/405', 'authflow:gate/SignOut/400', 'authflow:signout/page', 'authflow:signout/redirect', 'authflow:signout/revoke-failed',
            'authflow:redeem/tokens', 'authflow:redeem/error', 'authflow:gate/Redeem/401', 'authflow:gate/Refresh/401', 'authflow:gate/ValidateToken/401',
            'authflow:gate/GetProfile/401', 'authflow:callback/session', 'authflow:callback/error/500', 'authflow:callback/error/403', 'authflow:callback/error/400',
            'authflow:outside-service']
FW_FLOOR = ['forward:overlap/overlapped', 'forward:authenticated', 'forward:skip-auth', 'forward:connection-nominates-tracked', 'forward:session-cookie-present', 'forward:rsa/verifies', 'forward:rsa/mismatch', 'forward:hmac/on']
FLOORS = {
    'C03': FW_FLOOR + PF_FLOOR, 'C12': FW_FLOOR + ['config:env'], 'C07': AF_FLOOR, 'C08': AF_FLOOR + ['authflow:refresh/refreshed', 'authflow:refresh/400', 'authflow:validate/200', 'authflow:validate/401', 'authflow:profile/ok', 'system:login/ok'], 'C09': AF_FLOOR + ['sfwrap:auth/validate/leader', 'sfwrap:auth/validate/follower'], 'C10': AF_FLOOR + ['sfwrap:auth/redeem/leader'], 'C19': AF_FLOOR + PF_FLOOR + ['sfwrap:auth/revoke/leader', 'sfwrap:auth/revoke/follower', 'system:login/ok', 'system:signout/ok', 'system:signout/500', 'system:visit/revoked-and-due', 'system:visit/revoked-not-due', 'system:visit/validate/ok', 'system:visit/refresh/ok', 'system:login/already-signed-in-at-authenticator'], 'C20': ['htmlesc:escaped', 'htmlesc:verbatim', 'authflow:signin/page', 'authflow:signout/page', 'authflow:signout/revoke-failed', 'authflow:gate/SignIn/400', 'proxyflow:cb/errorParam'],
    'C01': PF_FLOOR + ['sfwrap:proxy/validate/follower', 'sfwrap:proxy/redeem/leader'], 'C04': PF_FLOOR + ['sfwrap:proxy/validate/leader', 'sfwrap:proxy/validate/follower', 'sfwrap:proxy/refresh/follower'], 'C05': PF_FLOOR, 'C13': PF_FLOOR, 'C06': PF_FLOOR + ['sfwrap:proxy/redeem/leader'], 'C18': PF_FLOOR,
    'C14': ['config:loadenv/loaded', 'config:loadenv/refused', 'config:env', 'config:loaded', 'config:loaded/skip-regex', 'config:error/missingService', 'config:error/missingFrom', 'config:error/missingTo',
            'config:error/badFromUrl', 'config:error/badFromRegex', 'config:error/unknownType', 'config:error/badSkipRegex',
            'config:error/badHmac', 'config:error/noAllowRule'],
    'C02': ['aead:stores', 'aead:repeat/many', 'aead:genuine/accepted', 'aead:genuine-again/accepted', 'aead:other-key/rejected', 'aead:bitflip/rejected', 'aead:truncate-string/rejected',
            'aead:truncate-bytes/rejected', 'aead:extend/rejected', 'aead:newline/rejected', 'aead:cr/rejected', 'aead:trailing-bits/rejected',
            'aead:swap-nonce-body/rejected', 'aead:nonce-only/rejected', 'aead:body-from-other-key/rejected', 'aead:nonce-from-other-seal/rejected',
            'aead:random-bytes/rejected', 'aead:random-string/rejected', 'aead:empty/rejected'],
    'C11': PF_FLOOR + ['validators:addr/ok', 'validators:addr/denied', 'validators:addr/invalid-email', 'validators:domain/ok', 'validators:domain/denied',
            'validators:domain/invalid-email'],
    'C17': ['caches:pop/notfound', 'caches:pop/ok', 'caches:pop/err', 'caches:gc/hit', 'caches:gc/miss', 'caches:gc/error', 'caches:gc/purge', 'caches:fc/updBegin/began', 'caches:fc/updBegin/busy',
            'caches:fc/updEnd/updated', 'caches:fc/loopStart/loopStarted', 'caches:fc/loopStart/loopRefused', 'caches:fc/loopUpdBegin/began',
            'caches:fc/loopUpdBegin/busy', 'caches:fc/loopUpdEnd/updated', 'caches:fc/loopExit/exited', 'caches:fc/stop/stopped', 'caches:fc/get/got',
            'caches:mem/google/partly', 'caches:mem/google/allcached', 'caches:mem/google/nonecached', 'caches:mem/cognito/partly',
            'caches:mem/cognito/allcached', 'caches:mem/cognito/nonecached'],
    'C16': ['sf:arrive/leader', 'sf:arrive/joined', 'sf:fnReturn/fnDone', 'sf:remove/ret', 'sf:wake/ret', 'sf:wake/blocked',
            'sfwrap:proxy/validate/follower', 'sfwrap:proxy/refresh/follower', 'sfwrap:proxy/usergroups/follower',
            'sfwrap:auth/validate/follower', 'sfwrap:auth/refreshIfNeeded/follower', 'sfwrap:auth/membership/follower',
            'sfwrap:auth/revoke/follower', 'sfwrap:auth/refreshToken/follower'],
    'C15': ['breaker:admitted/0->0', 'breaker:admitted/1->1', 'breaker:admitted/2->1', 'breaker:rejected/2->2',
            'breaker:rejected/1->1', 'breaker:rejected/2->1', 'breaker:completed/0->2', 'breaker:completed/1->0',
            'breaker:completed/1->2', 'breaker:completed/2->1', 'breaker:complete/stale', 'breaker:complete/current',
            'breaker:completed/2->2', 'breaker:completed/1->1', 'breaker:completed/0->0'],
}


# scenarios added in rounds 5 and 6 of the seeded changes: each must actually have run
for _pid, _extra in {
    'C02': ['aead:parallel', 'authflow:redeem/tokens'],
    'C07': ['authflow:sigOverlap'],
    'C08': ['authflow:overlap'],
    'C10': ['authflow:provRedeem/google/session', 'authflow:provRedeem/okta/session', 'authflow:provRedeem/cognito/session',
            'authflow:provRedeem/google/error', 'authflow:provRedeem/okta/error', 'authflow:provRedeem/cognito/error'],
    'C16': ['sf:stress'],
    'C17': ['caches:loopstress'],
}.items():
    FLOORS[_pid] = FLOORS.get(_pid, []) + _extra


def coverage_floor(pid, tier):
    return FLOORS.get(pid, [])


COMMON_TB = [
    "Lean 4.33.0 kernel (thorough tier re-checks the compiled modules with leanchecker)",
    "the fact extractor /verif/tools/extract (go/ast, syntactic) and the reading of its output by the spec theorems",
    "the correspondence harness (/verif/harness, built into the sso module with go build -overlay), its generators and canonicalisation, and the Lean driver's JSON decoding",
]

PF_TB = ["the fake sso-auth, the recording backends and the in-process driving of the real handler tree (proxy.New from a generated YAML file, wrapped in NewLoggingHandler as cmd/sso-proxy/main.go does); requests are parsed by net/http's own request reader",
            "time: sso reads time.Now() directly; the clock is advanced by re-sealing the browser's cookie with every instant shifted (the harness holds the cookie secret), exact because both services are stateless between requests; deadlines exactly equal to 'now' are unobservable and skipped",
            "Go regexp (skip-auth patterns, rewrite routes), strings.ToLower, path.Clean (gorilla/mux path cleaning) and http.Redirect's Location rewriting are oracles computed by calling the libraries directly",
            "sealed cookies are idealised as in C02: LoadSession yields a session only for a value sealed under the proxy's secret",
            "modelled: oauthproxy.go Authenticate/Proxy/AuthenticateOnly/Favicon/OAuthCallback/SignOut/Handler route table, providers/sso.go Redeem stamping, ValidateGroup, RefreshSession, ValidateSessionState, sessions deadlines and grace, hostmux.Router; not modelled: logging, statsd, the reverse proxy itself (C03/C12)"]
AF_TB = ["the real sso-auth handler tree (auth.NewAuthenticatorMux with the real Google and Okta provider code, GroupCache and SingleFlight wrappers, wrapped in http.TimeoutHandler and NewLoggingHandler as cmd/sso-auth/main.go does), driven in-process with requests parsed by net/http's own request reader",
            "the identity provider is scripted: the providers' package-level HTTP client gets a RoundTripper (through an overlay accessor) that answers token / userinfo / tokeninfo / introspect / revoke calls per step and logs them",
            "net/url.Parse (Host, Hostname), base64 decoding of sig/state, strconv.ParseInt of ts, strings.ToLower and JSON/base64 decoding of id_token segments are oracles computed by calling the libraries (and the two real predicates validRedirectURI / validSignature through accessors, for the oracle of nested values only); the HMAC is idealised (PRF) — the harness mints signatures with its own HMAC implementation call",
            "an independent RFC 3986 authority/host splitter plus a browser-style reading (backslash as slash, tab/CR/LF stripped) written in the harness judges every Location header for C07's monitor",
            "modelled: middleware.go gates, authenticator.go authenticate/SignIn/ProxyOAuthRedirect/SignOut/Redeem/OAuthCallback decision logic, the Refresh/ValidateToken/GetProfile handlers behind their gates, google.go/okta.go/amazon_cognito.go Redeem and error classes; the route table is regenerated; not modelled: the Cognito provider beyond Redeem, static files, the sign-in page's form target"]
FW_TB = ["the real sso-proxy tree on a loopback socket in front of a recording backend on a loopback socket; requests are written byte by byte by the harness; net/http request parsing (canonical header names, Cookie parsing and Cookie.String rendering, Connection token splitting) are oracles computed by calling the library on the same bytes",
            "httputil.ReverseProxy's request-header editing is modelled for the tracked headers only (Connection-nominated and hop-by-hop removal); Director/X-Forwarded-For/User-Agent handling and net/http transport framing are not modelled (the backend's own record is the ground truth for Content-Length)",
            "modelled: Authenticate's header injection, deleteCookie, the signing document of request_signer.go; RSA-PKCS1v15/SHA-256 and HMAC-SHA256 are idealised (a signature verifies iff the signing documents are equal) — the backend verifies the real signatures with the real published key"]
TB = {
    'C03': FW_TB, 'C12': FW_TB, 'C07': AF_TB, 'C08': AF_TB, 'C09': AF_TB, 'C10': AF_TB, 'C19': AF_TB + PF_TB, 'C20': ['html/template contextual escaping is modelled for text nodes and double-quoted attribute values only (the only contexts the templates use — regenerated and re-proved) and compared byte for byte with html/template on generated payloads', 'the template context scanner lives in the extractor (trusted); page structure on the real handlers is judged with golang.org/x/net/html', 'encoding/json is uninterpreted: JSON error bodies are re-parsed by the harness'] + AF_TB,
    'C01': PF_TB, 'C04': PF_TB, 'C05': PF_TB, 'C13': PF_TB, 'C06': PF_TB + ['C06 additionally rests on C02 (sealing model) for "different ciphertexts"; the same-host claim for the recorded URI relies on gorilla/mux path cleaning and net/url serialisation, which are oracles here (differential only): see level_note'], 'C18': PF_TB + ['net/http TimeoutHandler and httputil.ReverseProxy header copying are modelled (Harden.lean) from reading and tied differentially; the sso-auth half of C18 is checked by the authflow engine'],
    'C14': ["yaml.v2 parsing is not modelled: the harness renders a generated structured document to YAML for the real loader and ships the structured form to the model",
            "mergo v0.3.7 is modelled for the struct shapes it is applied to (override / fill; pointer, slice, map, scalar rules) and tied differentially; url.Parse, regexp.Compile and hmacauth's digest table are oracles (theorems hold for every behaviour)",
            "template substitution is applied per string field in the model (generated values contain no braces, so map-iteration order does not matter)",
            "modelled: proxy_config.go loadServiceConfigs and helpers, options.go SetUpstreamConfigs' default options and allow-rule check; not modelled: go-micro/mapstructure environment decoding"],
    'C02': ["cryptographic assumptions, stated as the fields of the `AEAD` structure every theorem is parameterised by (satisfiable: AEAD.toy): AES-CMAC-SIV with 16-byte nonces is correct, authentic (INT-CTXT: only genuine ciphertexts open, only under their key and nonce) and key-separating; confidentiality ('the sealed form does not reveal the plaintext') is not expressible in an executable model and is assumed outright; crypto/rand nonces do not repeat",
            "gzip and encoding/json are an abstract lossless `Codec` (dec (enc v) = some v); json's leniency on *decoding* is irrelevant because only genuine plaintexts reach it (authenticity)",
            "Go's encoding/base64 is modelled (Prim/Base64.lean) and compared byte for byte with the library on every variant string",
            "modelled: internal/pkg/aead/aead.go Marshal/Unmarshal/Encrypt/Decrypt framing, sessions.MarshalSession/UnmarshalSession; the mutex in MiscreantCipher is not modelled (TestCipherDataRace covers it)"],
    'C11': ["strings.ToLower is uninterpreted in the theorems and shipped as an oracle table by the harness (computed by calling the library directly)",
            "modelled: internal/pkg/validators/*.go, the validator list built in proxy.New, the 'not all failed' test of OAuthCallback and the per-request loop of Authenticate"],
    'C17': ["Go's sync.RWMutex semantics: the two locked sections of Update and the locked section of RefreshLoop are atomic, fillFunc runs outside the lock (skeletons re-extracted and compared on every run)",
            "LocalCache is run with ttl 0 and its TTL goroutines are replaced by purge events fired through an accessor (any key, any time); the ticker of RefreshLoop is set to one hour so tick-driven refreshes do not occur in the lockstep runs — the model allows them (loopUpdBegin is enabled whenever the loop is idle)",
            "Google/Cognito membership functions run against a harness-supplied MemberSetCache and mock admin services (real provider code, fake directory); syncmap.Map is assumed linearizable",
            "modelled: internal/pkg/groups/{fillcache,localcache}.go, internal/auth/providers/group_cache.go, ValidateGroupMembership of google.go and amazon_cognito.go; not modelled: the Google/AWS admin SDK clients, statsd"],
    'C16': ["Go's sync.Mutex and sync.WaitGroup semantics: the two locked sections of Do are atomic, fn runs outside the lock, Wait returns only after Done (the lock/call skeleton of Do is re-extracted and compared on every run)",
            "the done/remove window is reached through a yield point inserted by tools/instrument.py into an overlay copy of the *current* singleflight.go (one added line; nil hook elsewhere)",
            "proxy-side middleware runs around the real SSOProvider against a fake authenticator that holds requests; authenticator-side middleware runs around a blocking inner provider that updates the session the way the real providers' RefreshSessionIfNeeded does",
            "modelled: all of internal/pkg/singleflight, the key construction and follower/leader data flow of both singleflight_middleware.go files; statsd counters are not modelled"],
    'C15': ["Go's sync.Mutex semantics: beforeRequest/afterRequest are each one atomic step (lock; defer unlock) — the lock skeleton is re-extracted and compared on every run",
            "benbjohnson/clock mock stands in for the wall clock; real-time behaviour is not claimed",
            "modelled: all of internal/auth/circuit/breaker.go except ExponentialBackoffDuration's floating-point jitter (the back-off rule is an arbitrary function in the theorems)"],
}

PF_RULE = "proxyflow: real proxy with three upstreams (static domain-rule + skip-auth regexes; static group-rule with its own provider_slug; rewrite route with address+domain rules), rules of the first upstream drawn over all subsets of {addresses, domains, groups} incl. wildcards and case variants, TTLs varied; four modes: (a) decision table: 6-15 independent requests with cookie kind (none, garbage, other key, sealed flow record, sealed session with slug/host/lifetime/refresh/valid/grace/e-mail/refresh-token each independently good or bad) x request (hosts incl. unrouted/case/port variants, 18 targets incl. encoded, dot-segment, double-slash, backslash, fixed routes; XHR; methods) x authenticator answers (ok, 401, 429, 503, other statuses, transport error, malformed JSON independently at /validate, /profile, /refresh, group answers); (b) login then a history of 4-12 requests on the browser's jar with gaps around V, token TTL, G and L, faults, replays of older cookies; (c) flows: two starts then 3-7 callbacks with state/CSRF kinds (own, stale, other, same, garbage, sealed session, other key, absent), codes, error params, redeem outcomes, e-mails; fixed prelude with one representative per model branch; non-trivial = an upstream was reached; distinct = distinct case hash"
AF_RULE = "authflow: fixed prelude of ~250 steps (every gate failure per route; 28 redirect-URI corner cases each at /sign_in and /sign_out: userinfo, ports, case, trailing dot, look-alike suffixes, scheme-relative, odd schemes, backslash, control characters, IPv6 zone, percent-encoding; signature manglings: wrong/absent/other-URI/other-secret MAC, re-split digit, std-alphabet base64, ts just inside/outside 300 s, future, non-numeric; cookie kinds; IdP validate/refresh outcomes per error class; /start with good/bad nested redirect; /callback with id_tokens of 0-5 segments, bad base64/JSON, unverified/empty e-mail, token endpoint statuses/transport/raw bodies, Okta userinfo variants, nonce/CSRF/state manglings; sign-out GET/POST x cookie kinds x revoke outcomes incl. already-revoked, then reuse of the old cookie; back-channel routes x credential placements (form, query, header, duplicated, prefix, upper-case, empty, missing) x code kinds) then random recombination: 6-15 prelude steps per case with redirect URI, signature mangling, ts offset, session e-mail/deadlines, id_token, userinfo, Accept header and provider mutated; non-trivial = a request passed all gates of its route; distinct = distinct case hash"
FW_RULE = "forward: cases of 3-8 raw requests each against one upstream with signer on/off x HMAC key on/off x inject headers: authenticated / skip-auth / unauthenticated; identity and covered headers in any spelling and multiplicity incl. empty values; Connection headers nominating protected/covered headers; 0-2 Cookie lines built from pieces (other cookies, quoted values, spaces, commas, the session cookie first/middle/last/duplicated, a forged session cookie, look-alike names); methods; encoded paths and queries; no/small/binary/64 KiB bodies, sized or chunked, explicit Content-Length: 0; fixed prelude; non-trivial = the request reached the backend; distinct = distinct case hash"
RULES = {
    'C03': FW_RULE, 'C12': FW_RULE, 'C07': AF_RULE, 'C08': AF_RULE, 'C09': AF_RULE, 'C10': AF_RULE, 'C19': AF_RULE + ' || ' + PF_RULE, 'C20': 'htmlesc: 20 hand-picked payloads (markup, quote breaks, entities, NUL, UTF-7, comments, CDATA, template syntax) + random strings over a 20-symbol alphabet of structural, ASCII and multi-byte characters rendered by html/template in text and quoted-attribute context; authflow/proxyflow: every sign-in, sign-out and error page rendered while exploring C06-C10/C19 with payloads in error, redirect_uri, sig, ts, state, e-mail, Host-derived and provider-message positions; non-trivial = a payload needing escaping; distinct = distinct case hash || ' + AF_RULE,
    'C01': PF_RULE, 'C04': PF_RULE, 'C05': PF_RULE, 'C13': PF_RULE, 'C06': PF_RULE, 'C18': PF_RULE + ' || C18 monitor runs on every response of every step; dedicated secure-cookie case with an upstream that sets, duplicates and case-varies the protected headers, header_overrides, cookie domain',
    'C14': "documents of 1-3 services x default/prod/staging blocks (present, absent, null) x optional options (each field independently set; maps with overlapping keys and empty values; bad regex; per-upstream provider_slug) x 0-2 extra routes x route types (simple, rewrite, unknown) x from/to incl. template variables, unparsable hosts, missing; cluster prod/staging/default; deployment defaults each on/off; HMAC key specs good/bad; fixed prelude with one document per error kind; non-trivial = loading succeeded with at least one upstream; distinct = distinct case hash",
    'C02': "per case one value (session or flow record; empty, Unicode, NUL, 300-byte fields, up to 40 groups) sealed twice under key 1 and once under key 2; variants of the sealed string: every single-bit flip and every truncation (first 3 cases; 48 random flips and sampled truncations otherwise), byte truncations/prefix drops, extensions/prependings by alphabet chars, '=', CR, LF, space, NUL, std alphabet, padded forms, CR/LF insertion at 5 positions and between all chars, every trailing-bit variant of the last character, nonce/body swap, nonce only, body only, nonce from the other seal, body from the other key, empty, random bytes/strings; non-trivial = always (each case opens the genuine value); distinct = distinct case hash",
    'C11': PF_RULE + " || validators: rule lists of 0-3 entries (addresses or domains, '*' alone and among others) x e-mails from a grammar (case variants, Unicode with special case mappings, several '@', empty local part, no '@', look-alike and sub-domains, trailing '*'), one third constructed to hit; non-trivial = non-empty rules and non-empty e-mail; distinct = distinct case hash",
    'C17': "three case kinds, one third each: gc = 4-20 questions/purges over 2-3 users x permuted subsets of 3-4 group names with directory answers/errors; fc = 5-30 lockstep events (Update begin/end with ok/notFound/err, RefreshLoop, loop fill end, Stop, Get) over 1-3 groups and 4 caller threads; mem = random cache contents x asked subsets x directory answers for Google and Cognito; fixed prelude covers every branch; non-trivial = a cache hit (gc), a fill began (fc), a partly cached question (mem); distinct = distinct case hash",
    'C16': "sf: schedules over 2-8 threads x 1-3 keys (arrive | fnReturn v | remove | wake), arrivals before/while/after the leader runs and inside the done/remove window, values and errors; sfwrap: 2-5 callers per case over every coalesced method of both middlewares with tokens/emails/group sets drawn to collide or differ (incl. ':' and ',' in names, permuted group order), executions held until all callers arrived; non-trivial = at least one caller joined another's call; distinct = distinct case hash",
    'C15': "event lists (start i | complete i ok | tick d) over random rule tables (trip threshold 1-4 on fail or fail+cur, reset 1-3, back-off const/linear/cur-dependent, half-open cap 0-3), 5-45 events, ticks drawn at exactly / just before / just after the back-off; a fixed prelude covers every LTS step kind; a case is non-trivial when the breaker changed state at least once; distinct = distinct (cfg, ops) hash",
}

PF_ASSUME = ["AEAD ideal as in C02", "the authenticator's answers within one request are the scripted ones (one answer per endpoint per request)", "no deadline equals the request instant exactly"]
ASSUME = {
    'C07': ["HMAC-SHA256 is a PRF (a MAC the authenticator accepts was produced with the proxy's secret over the same byte string)", "url.Parse as oracle for Host/Hostname; the monitor's RFC/browser host reading is an independent re-implementation"],
    'C08': ["ideal AEAD (C02) for authorization codes", "ParseForm succeeds on generated requests"],
    'C09': ["ideal AEAD (C02) for the authenticator cookie", "the scripted IdP answers stand for the provider's current verdict"],
    'C10': ["encoding/json and base64 decoding of provider bodies are oracles", "Cognito is not exercised (AWS SDK); its Redeem is covered by reading only"],
    'C20': ["a value rendered through html/template in the two proven-safe contexts is exactly htmlEscape of it (differential)", "browsers tokenise as the HTML standard says (the model covers the two states involved)"],
    'C19': ["identity provider: a revoked token no longer validates or refreshes, and revoking any token of a grant revokes the grant — its refresh token and every access token issued under it, including one the proxy obtained later by refreshing (Google revokes the grant when given an access token; sso's Okta provider revokes the refresh token). With an IdP that keeps later access tokens of the grant alive, a proxy session that has refreshed since login would survive the sign-out until that token expires: the authenticator only ever revokes the token in *its own* cookie",
            "as C04/C05 for the proxy half"],
    'C03': ["net/http parsing as oracle", "the session presented by authenticated requests is valid and fresh (gates are C01's business)"],
    'C12': ["RSA/HMAC idealised in the theorems; verified for real by the backend", "upstream `to` is a bare host (as in the property)"],
    'C01': PF_ASSUME, 'C06': PF_ASSUME, 'C18': PF_ASSUME, 'C04': PF_ASSUME + ["histories are per browser: the client may present any cookie of its own chain, nothing else opens (C02)"], 'C05': PF_ASSUME + ["grace window statements are per session value: replaying a pre-outage cookie restarts the window (outside the property's one-browser quantifier; see DESIGN)"], 'C13': PF_ASSUME,
    'C14': ["YAML parsing yields the structured document the generator rendered", "url.Parse / regexp.Compile arbitrary (oracles)"],
    'C02': ["AES-CMAC-SIV is INT-CTXT and key-separating; confidentiality assumed", "crypto/rand nonces are fresh", "gzip/json round trip on sealed values"],
    'C11': ["strings.ToLower may be any function (theorems quantify over it)", "redeemCode rejects an empty e-mail before validators run (modelled; checked in proxyflow)"],
    'C17': ["mutex atomicity; syncmap linearizability", "sort.Strings is a sorted permutation (harness ships the sorted list)", "timer-driven events are nondeterministic events of the model, real-time bounds not claimed"],
    'C16': ["mutex / WaitGroup atomicity and happens-before as documented by Go", "sort.Strings returns a sorted permutation (sortedGroups is computed by the harness with the same library call)",
            "statsd side effects ignored"],
    'C15': ["critical sections are atomic (Go mutex)", "the user function runs outside the lock between the two critical sections (lock skeleton fact, regenerated)",
            "Counts are mathematical integers (Go int overflow after 2^63 calls is out of scope)"],
}


def trusted_base(pid):
    return COMMON_TB + TB.get(pid, [])


def rule(pid):
    return RULES.get(pid, '')


def assumptions(pid):
    return ASSUME.get(pid, [])


def replay_input(engine, case):
    """Turn a recorded trace case back into the harness's replay input."""
    if 'raw' in case:
        return case
    if 'ops' in case:
        return dict(cfg=case.get('cfg'), evs=[op['in'] for op in case['ops']])
    return case


def extract_facts(repo, work, goenv):
    """Run the extractor on the current tree. Returns dict(text, names, problems, ok_for, problems_for)."""
    exe = os.path.join(V, '.work', 'bin', 'extract')
    src = os.path.join(V, 'tools', 'extract')
    newest = max(os.path.getmtime(os.path.join(src, f)) for f in os.listdir(src))
    if not os.path.exists(exe) or os.path.getmtime(exe) < newest:
        os.makedirs(os.path.dirname(exe), exist_ok=True)
        r = subprocess.run(['go', 'build', '-o', exe, '.'], cwd=src, env=goenv, stdout=subprocess.PIPE, stderr=subprocess.STDOUT, text=True)
        if r.returncode != 0:
            raise RuntimeError('extractor build failed: ' + r.stdout)
    outp = os.path.join(work, 'Facts.lean')
    probp = os.path.join(work, 'problems.json')
    r = subprocess.run([exe, repo, outp, probp], stdout=subprocess.PIPE, stderr=subprocess.STDOUT, text=True)
    if r.returncode != 0:
        raise RuntimeError('extractor failed: ' + r.stdout)
    pj = json.load(open(probp))
    problems = pj.get('problems') or []

    def problems_for(pid):
        return ['%s: %s' % (p['fact'], p['why']) for p in problems if pid in p['props']]

    return dict(text=open(outp).read(), names=pj.get('names') or [], problems=problems,
                ok_for=lambda pid: not problems_for(pid), problems_for=problems_for)
