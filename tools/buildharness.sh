#!/bin/bash
# usage: buildharness.sh <workdir> [extra go build flags...]
# Builds /verif/harness into the sso module from $VERIF_REPO's current working tree via -overlay.
set -euo pipefail
W="$1"; shift
REPO="${VERIF_REPO:-/repo}"
V="$(cd "$(dirname "$0")/.." && pwd)"
export GOFLAGS=-mod=mod GOPROXY=off GOSUMDB=off GOTOOLCHAIN=local
mkdir -p "$W"
cp "$REPO/go.mod" "$W/go.mod"; cp "$REPO/go.sum" "$W/go.sum"
python3 "$V/tools/instrument.py" "$REPO" "$W" > "$W/instr.json"
python3 - "$REPO" "$V" "$W" <<'PY'
import json,os,sys,glob
repo,v,w=sys.argv[1:4]
rep=json.load(open(w+'/instr.json'))
for f in glob.glob(v+'/harness/*.go'):
    rep[repo+'/internal/verifharness/'+os.path.basename(f)]=f
for f in glob.glob(v+'/harness/exports/*.go'):
    pkg=os.path.basename(f)[:-3].replace('__','/')
    rep[repo+'/'+pkg+'/zz_export_verif.go']=f
json.dump({'Replace':rep},open(w+'/overlay.json','w'))
PY
cd "$REPO"
go build -modfile="$W/go.mod" -overlay "$W/overlay.json" "$@" -o "$W/verifharness" ./internal/verifharness
