#!/bin/bash
# usage: seedverify.sh <id> <dir>   dir has patch.diff and demos.txt (lines: <pkgdir> <file relative to dir>)
# Confirms a seeded change in a scratch worktree of /repo: demo passes without, fails with; build ok; suite passes with.
set -u
id=$1; src=$(realpath $2)
export GOFLAGS=-mod=mod GOPROXY=off GOSUMDB=off GOTOOLCHAIN=local
wt=/tmp/vt/$id
git -C /repo worktree remove --force $wt 2>/dev/null
git -C /repo worktree add -q --detach $wt HEAD || exit 2
cd $wt
pkgs=""
while read d f; do cp $src/$f $wt/$d/; pkgs="$pkgs ./$d/"; done < $src/demos.txt
echo "== demo WITHOUT change (expect ok)"
go test -vet=off -count=1 -run 'Seeded' $pkgs 2>&1 | tail -4
git apply $src/patch.diff || { echo "PATCH DOES NOT APPLY"; exit 2; }
echo "== build"; go build ./... && echo build-ok
echo "== demo WITH change (expect FAIL)"
go test -vet=off -count=1 -run 'Seeded' $pkgs 2>&1 | grep -aE '^(--- FAIL|FAIL|ok)' | head -8
echo "== suite WITH change, demo removed (expect only TestRoundTrip)"
while read d f; do rm -f $wt/$d/$(basename $f); done < $src/demos.txt
go test -vet=off -count=1 ./internal/... 2>&1 | grep -aE '^(--- FAIL|FAIL)' | head
cd /; git -C /repo worktree remove --force $wt
