#!/bin/bash
# usage: sweep.sh <tier> <out> <seeds...>   run every check at the tier for each seed on the current tree; log verdict lines
tier=$1; out=$2; shift 2
cd /verif; : > $out
for s in "$@"; do
  for i in 01 02 03 04 05 06 07 08 09 10 11 12 13 14 15 16 17 18 19 20; do
    r=$(VERIF_SEED=$s ./check C$i $tier 2>&1 | grep -E '^(VIOLATION|OK|INFRA)|INFRASTRUCTURE' | head -2 | tr '\n' ' ')
    echo "seed=$s C$i $r" >> $out
  done
done
