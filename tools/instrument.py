#!/usr/bin/env python3
"""instrument.py <repo> <workdir>: writes <workdir>/singleflight_instr.go, a copy of the *current*
internal/pkg/singleflight/singleflight.go with one yield point inserted after `c.wg.Done()`, plus
<workdir>/zz_window_verif.go recording whether the insertion point was found. Prints the overlay pairs."""
import sys, os, re, json
repo, work = sys.argv[1], sys.argv[2]
src = os.path.join(repo, 'internal/pkg/singleflight/singleflight.go')
pairs = {}
ok = False
try:
    lines = open(src).read().split('\n')
    out = []
    for l in lines:
        out.append(l)
        if re.match(r'^\s*c\.wg\.Done\(\)\s*$', l) and not ok:
            out.append(re.match(r'^\s*', l).group(0) + 'verifYield(key)')
            ok = True
    if ok:
        p = os.path.join(work, 'singleflight_instr.go')
        open(p, 'w').write('\n'.join(out))
        pairs[src] = p
except OSError:
    pass
w = os.path.join(work, 'zz_window_verif.go')
open(w, 'w').write('package singleflight\n\n// VerifWindow: the done/remove yield point could be inserted into the current source.\nconst VerifWindow = %s\n' % ('true' if ok else 'false'))
pairs[os.path.join(repo, 'internal/pkg/singleflight/zz_window_verif.go')] = w
print(json.dumps(pairs))
