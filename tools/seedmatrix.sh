#!/bin/bash
# usage: seedmatrix.sh <out.tsv> [seeded ids...]   For each seeded change: apply, run its own check + the related ones, undo.
out=$1; shift
ids=${@:-$(ls -d /verif/seeded/C* | xargs -n1 basename)}
cd /verif
: > $out
for sid in $ids; do
  [ -z "$(git -C /repo status --porcelain)" ] || { echo "/repo not clean"; exit 2; }
  git -C /repo apply /verif/seeded/$sid/patch.diff || continue
  rel=$(python3 -c "
import json,sys
m=json.load(open('seeded/$sid/meta.json')) if __import__('os').path.exists('seeded/$sid/meta.json') else {}
print(' '.join(m.get('checks_run',['$sid'])))")
  for cid in $rel; do
    r=$(VERIF_STUCK_SECONDS=30 ./check $cid quick 2>&1 | grep -E '^(VIOLATION|OK)' | head -1)
    printf "%s\t%s\t%s\n" $sid $cid "$r" >> $out
  done
  git -C /repo checkout -- .
done
