SOURCE_COMMITS = []
NOTES = ("Technique family: machine-checked proof in Lean 4. Each property: theorems about an executable Lean model (lean/SsoModel, lean/SsoSpec/<id>.lean), "
         "tied to /repo on every run by (T1) facts regenerated from the source into lean/Generated/Facts.lean and re-proved, and (T2/T3) a differential correspondence: "
         "the real code is driven in-process by /verif/harness (overlay build), the Lean driver ssoverif replays every trace through the model and evaluates the property's monitor on the implementation's own outputs. "
         "Known findings: /verif/known_findings.json. See DESIGN.md.")
ENGINE = {
    'breaker': 'real circuit.Breaker under lockstep event schedules (mock clock, harness-owned f), compared step by step with the Lean LTS',
}
TECH = {}
LEVEL = {
    'C15': "Lean 4 theorems over the breaker LTS for all rule functions and all event interleavings (inductive invariant: in-flight counter = number of running calls, half-open cap, no in-flight call of an open generation, generation counts state changes; iff-characterisations of trip/reset/re-open; stale outcomes irrelevant). The model is tied to breaker.go by regenerated lock/call skeletons (re-proved equal to what the LTS assumes) and by lockstep replay of the real Breaker against the model.",
}
NOTE = {
    'C15': "Trusted: Lean kernel; Go mutex atomicity of the two critical sections; the mock clock; extractor + harness + driver. Theorems depend on axioms propext/Quot.sound/Classical.choice at most (audited per run).",
}
NA = {}
