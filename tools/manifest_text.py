SOURCE_COMMITS = []
NOTES = ("Technique family: machine-checked proof in Lean 4. Each property: theorems about an executable Lean model (lean/SsoModel, lean/SsoSpec/<id>.lean), "
         "tied to /repo on every run by (T1) facts regenerated from the source into lean/Generated/Facts.lean and re-proved, and (T2/T3) a differential correspondence: "
         "the real code is driven in-process by /verif/harness (overlay build), the Lean driver ssoverif replays every trace through the model and evaluates the property's monitor on the implementation's own outputs. "
         "Known findings: /verif/known_findings.json. See DESIGN.md.")
ENGINE = {
    'validators': 'real address/domain validators on generated rule lists and e-mails, strings.ToLower as oracle, compared with the Lean validators and with the documented meaning',
    'caches': 'real GroupCache/LocalCache, real FillCache in lockstep with an owned fillFunc, real Google and Cognito ValidateGroupMembership with fake directory; compared with the Lean cache models',
    'sf': 'real singleflight.Group under lockstep schedules incl. the done/remove window (yield point in an overlay copy), compared with the Lean LTS',
    'sfwrap': 'both real SingleFlightProvider middlewares with held executions: observed composite keys, merged answers and every caller\'s session vs the Lean wrapper model',
    'breaker': 'real circuit.Breaker under lockstep event schedules (mock clock, harness-owned f), compared step by step with the Lean LTS',
}
TECH = {}
LEVEL = {
    'C11': "Lean 4 theorems for every ToLower function: address rule = exact lower-cased membership; domain rule = the part after the last '@' equals the listed domain (no look-alike suffix); lone '*' admits exactly the non-empty e-mails; empty e-mail / empty rules admit nobody; login verdict = documented any-of; request verdict = login verdict with one rule kind, and is never laxer; the full 'same verdict at login and later' statement is refuted by a proved counterexample (open finding). Tied by differential runs of the real validators.",
    'C17': "Lean 4 theorems: for every history a cache hit returns an answer the directory gave under the same key; errors are not cached; purges only forget; key injectivity / order-insensitivity (with the comma counterexample proved); FillCache LTS invariant for all interleavings (single fill per group across callers and loops, single loop per group, cache = latest successful fill with no not-found since, store/keep/delete); Google falls back to the directory for partly cached questions; Cognito's fallback is refuted (open finding) with partial theorems. Tied by regenerated skeletons and lockstep/differential replay of the real caches and providers.",
    'C16': "Lean 4 theorems over the singleflight LTS for any number of threads/keys and every interleaving (one execution per key, joined callers get the one execution's result, leader's count = number joined, fresh execution after return, keys never shared), key-injectivity theorems for the composite and membership keys with the needed side conditions and proved counterexamples without them, and the follower-session refutation + partial theorems. Tied by regenerated skeleton/key facts and lockstep replay of the real Group and both real middlewares. Two open known findings (follower session not updated; ':'/',' key collisions).",
    'C15': "Lean 4 theorems over the breaker LTS for all rule functions and all event interleavings (inductive invariant: in-flight counter = number of running calls, half-open cap, no in-flight call of an open generation, generation counts state changes; iff-characterisations of trip/reset/re-open; stale outcomes irrelevant). The model is tied to breaker.go by regenerated lock/call skeletons (re-proved equal to what the LTS assumes) and by lockstep replay of the real Breaker against the model.",
}
NOTE = {
    'C11': "Trusted: Lean kernel; harness + driver; ToLower uninterpreted. Open findings: domain-star-suffix; allow-rules-all-of (login any-of vs request all-of: proved in Lean as C11_request_eq_login_refuted).",
    'C17': "Trusted: Lean kernel; Go RWMutex atomicity; syncmap; harness + driver; TTL purges and ticker ticks are modelled as nondeterministic events (purges fired through an accessor, ticks not forced). Two open known findings: cognito-partial-cache-union, groupcache-key-comma.",
    'C16': "Trusted: Lean kernel; Go mutex/WaitGroup semantics; the instrumented overlay copy differs from the source by one yield line; harness + driver. The last sentence of C16 is false of the unchanged code (KNOWN-FINDING sf-follower-session); the theorem is kept as a refutation plus partial theorems.",
    'C15': "Trusted: Lean kernel; Go mutex atomicity of the two critical sections; the mock clock; extractor + harness + driver. Theorems depend on axioms propext/Quot.sound/Classical.choice at most (audited per run).",
}
NA = {}
