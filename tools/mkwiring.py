#!/usr/bin/env python3
"""One-off generator (kept for the record): adds skeleton facts to tools/extract/facts.go and, per property, one
`Cxx_wiring` theorem to lean/SsoSpec/Cxx.lean whose right-hand sides are the skeletons of the *current* tree, frozen
as hand-held expectations. After this has run, the expectations live in the spec files; the facts are regenerated from
/repo on every run and the theorems re-checked by `decide`."""
import re, subprocess, os, sys
V = os.path.dirname(os.path.dirname(os.path.abspath(__file__)))
OP = 'internal/proxy/oauthproxy.go'; SSO = 'internal/proxy/providers/sso.go'; AU = 'internal/auth/authenticator.go'; AM = 'internal/auth/middleware.go'
RP = 'internal/proxy/reverse_proxy.go'; PM = 'internal/proxy/middleware.go'; PC = 'internal/proxy/proxy_config.go'; OPT = 'internal/proxy/options.go'
W = {  # property -> (namespace, doc, [(fact, file, recv, func)])
 'C01': ('Sso.Proxy', "`Authenticate` — the gate order (provider slug, host binding, lifetime, refresh, validation, validators) — and the two entry points that reuse it",
         [('skel_proxy_Authenticate', OP, 'OAuthProxy', 'Authenticate'), ('skel_proxy_AuthenticateOnly', OP, 'OAuthProxy', 'AuthenticateOnly'),
          ('skel_proxy_IsWhitelistedRequest', OP, 'OAuthProxy', 'IsWhitelistedRequest'), ('skel_proxy_Favicon', OP, 'OAuthProxy', 'Favicon')]),
 'C03': ('Sso.Forward', "the session-cookie filter and its place in the handler chain",
         [('skel_proxy_deleteCookieHandler', RP, '', 'deleteCookieHandler'), ('skel_proxy_deleteCookie', RP, '', 'deleteCookie'),
          ('skel_proxy_DirectorFunc', RP, 'Director', 'DirectorFunc')]),
 'C04': ('Sso.Proxy', "the provider client's three checks",
         [('skel_sso_RefreshSession', SSO, 'SSOProvider', 'RefreshSession'), ('skel_sso_ValidateSessionState', SSO, 'SSOProvider', 'ValidateSessionState'),
          ('skel_sso_ValidateGroup', SSO, 'SSOProvider', 'ValidateGroup'), ('skel_sso_redeemRefreshToken', SSO, 'SSOProvider', 'redeemRefreshToken')]),
 'C05': ('Sso.Proxy', "the grace predicate (stamps the start on first use) and the deadline helpers",
         [('skel_sessions_IsWithinGracePeriod', 'internal/pkg/sessions/session_state.go', 'SessionState', 'IsWithinGracePeriod'),
          ('skel_sessions_isExpired', 'internal/pkg/sessions/session_state.go', '', 'isExpired'),
          ('skel_sessions_ExtendDeadline', 'internal/pkg/sessions/session_state.go', '', 'ExtendDeadline')]),
 'C06': ('Sso.Proxy', "flow start and callback on the proxy",
         [('skel_proxy_OAuthStart', OP, 'OAuthProxy', 'OAuthStart'), ('skel_proxy_OAuthCallback', OP, 'OAuthProxy', 'OAuthCallback'),
          ('skel_proxy_redeemCode', OP, 'OAuthProxy', 'redeemCode')]),
 'C07': ('Sso.AuthN', "the redirect-URI predicate and its middleware",
         [('skel_auth_validRedirectURI', AM, '', 'validRedirectURI'), ('skel_auth_validateRedirectURI', AM, 'Authenticator', 'validateRedirectURI'),
          ('skel_auth_redirectURLSignature', AM, '', 'redirectURLSignature')]),
 'C08': ('Sso.AuthN', "the client-credential middlewares and the other three back-channel handlers",
         [('skel_auth_validateClientID', AM, 'Authenticator', 'validateClientID'), ('skel_auth_validateClientSecret', AM, 'Authenticator', 'validateClientSecret'),
          ('skel_auth_Refresh', AU, 'Authenticator', 'Refresh'), ('skel_auth_ValidateToken', AU, 'Authenticator', 'ValidateToken')]),
 'C09': ('Sso.AuthN', "the authenticator's own `authenticate`, `SignIn` and the code-issuing redirect",
         [('skel_auth_authenticate', AU, 'Authenticator', 'authenticate'), ('skel_auth_SignIn', AU, 'Authenticator', 'SignIn'),
          ('skel_auth_ProxyOAuthRedirect', AU, 'Authenticator', 'ProxyOAuthRedirect')]),
 'C10': ('Sso.AuthN', "the IdP callback and both providers' `Redeem`",
         [('skel_auth_getOAuthCallback', AU, 'Authenticator', 'getOAuthCallback'), ('skel_google_Redeem', 'internal/auth/providers/google.go', 'GoogleProvider', 'Redeem'),
          ('skel_okta_Redeem', 'internal/auth/providers/okta.go', 'OktaProvider', 'Redeem'),
          ('skel_okta_verifyEmailWithAccessToken', 'internal/auth/providers/okta.go', 'OktaProvider', 'verifyEmailWithAccessToken')]),
 'C11': ('Sso.Validators', "the three validators and the runner",
         [('skel_validators_domain', 'internal/pkg/validators/email_domain_validator.go', 'EmailDomainValidator', 'validate'),
          ('skel_validators_newDomain', 'internal/pkg/validators/email_domain_validator.go', '', 'NewEmailDomainValidator'),
          ('skel_validators_address', 'internal/pkg/validators/email_address_validator.go', 'EmailAddressValidator', 'validate'),
          ('skel_validators_group', 'internal/pkg/validators/email_group_validator.go', 'EmailGroupValidator', 'validate'),
          ('skel_validators_Run', 'internal/pkg/validators/validators.go', '', 'RunValidators')]),
 'C12': ('Sso.Forward', "the signer",
         [('skel_signer_Sign', 'internal/proxy/request_signer.go', 'RequestSigner', 'Sign'), ('skel_signer_removeEmpty', 'internal/proxy/request_signer.go', '', 'removeEmpty')]),
 'C14': ('Sso.Config', "the loader",
         [('skel_cfg_loadServiceConfigs', PC, '', 'loadServiceConfigs'), ('skel_cfg_parseOptionsConfig', PC, '', 'parseOptionsConfig'),
          ('skel_cfg_resolveUpstreamConfig', PC, '', 'resolveUpstreamConfig'), ('skel_cfg_resolveExtraRoute', PC, '', 'resolveExtraRoute'),
          ('skel_cfg_validateUpstreamConfig', PC, '', 'validateUpstreamConfig'), ('skel_cfg_SetUpstreamConfigs', OPT, '', 'SetUpstreamConfigs')]),
 'C16': ('Sso.SfWrappers', "`do` of both middlewares",
         [('skel_proxy_sf_do', 'internal/proxy/providers/singleflight_middleware.go', 'SingleFlightProvider', 'do'),
          ('skel_auth_sf_do', 'internal/auth/providers/singleflight_middleware.go', 'SingleFlightProvider', 'do')]),
 'C18': ('Sso.Harden', "the header middlewares",
         [('skel_proxy_setHeaders', PM, '', 'setHeaders'), ('skel_proxy_setSecurityHeaders', PM, '', 'setSecurityHeaders'),
          ('skel_proxy_setResponseHeaderOverrides', PM, 'OAuthProxy', 'setResponseHeaderOverrides'), ('skel_auth_setHeaders', AM, '', 'setHeaders')]),
 'C19': ('Sso.AuthN', "the proxy's sign-out handler and the signed sign-out URL",
         [('skel_proxy_SignOut', OP, 'OAuthProxy', 'SignOut'), ('skel_sso_GetSignOutURL', SSO, 'SSOProvider', 'GetSignOutURL'),
          ('skel_sso_signRedirectURL', SSO, 'SSOProvider', 'signRedirectURL')]),
 'C20': ('Sso.Html', "the handlers that put request-controlled text on a page or into JSON",
         [('skel_proxy_ErrorPage', OP, 'OAuthProxy', 'ErrorPage'), ('skel_proxy_XHRError', OP, 'OAuthProxy', 'XHRError'),
          ('skel_auth_SignOutPage', AU, 'Authenticator', 'SignOutPage'), ('skel_auth_SignInPage', AU, 'Authenticator', 'SignInPage')]),
}
fp = os.path.join(V, 'tools/extract/facts.go')
fs = open(fp).read()
add = ['\t// ---- wiring of the decision functions themselves (frozen expectations: the Cxx_wiring theorems)']
for pid, (ns, doc, items) in sorted(W.items()):
    for fact, f, recv, fn in items:
        if fact + '"' in fs: continue
        add.append('\tskeletonFact("%s", []string{"%s"}, "%s", "%s", "%s")' % (fact, pid, f, recv, fn))
if len(add) > 1:
    fs = fs.replace('\ttemplateActions(', '\n'.join(add) + '\n\n\ttemplateActions(', 1)
    open(fp, 'w').write(fs)
env = dict(os.environ, GOFLAGS='-mod=mod', GOPROXY='off', GOSUMDB='off', GOTOOLCHAIN='local')
subprocess.check_call('cd %s/tools/extract && go build -o ../../.work/bin/extract .' % V, shell=True, env=env)
subprocess.check_call([V + '/.work/bin/extract', '/repo', V + '/lean/Generated/Facts.lean', '/tmp/problems.json'])
print(open('/tmp/problems.json').read()[-200:])
facts = open(V + '/lean/Generated/Facts.lean').read()
def val(name):
    m = re.search(r'^def %s : List String := (\[.*\])$' % name, facts, re.M)
    assert m, name
    return m.group(1)
for pid, (ns, doc, items) in sorted(W.items()):
    p = V + '/lean/SsoSpec/%s.lean' % pid
    s = open(p).read()
    if 'theorem %s_wiring' % pid in s: continue
    if 'import Generated.Facts' not in s: s = 'import Generated.Facts\n' + s
    conj = ' ∧\n    '.join('Sso.Generated.%s =\n      %s' % (fact, val(fact)) for fact, *_ in items)
    text = '/-- Tie (T1): %s — call/branch/store skeletons regenerated from the source on every run; the expectations below are\nwhat the model in this file transliterates. A structural edit of any of these functions breaks this theorem and sends the\ncheck searching for a failing input. -/\ntheorem %s_wiring :\n    %s := by decide\n\n' % (doc, pid, conj)
    end = 'end %s\n' % ns
    if end not in s:
        print('namespace end not found for', pid, ns); continue
    i = s.rindex(end)
    s = s[:i] + text + s[i:]
    open(p, 'w').write(s)
    print('added', pid)
